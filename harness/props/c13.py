"""C13 — the printed form echoes the object.

Tie: Python's own tokenisation of `repr(obj)` against the model's `render` token stream
(Properties/C13.lean proves `parse (render e) = e`, hence injectivity of printing up to equality).
Oracle on the implementation: `eval(repr(obj)) == obj`, `str == repr`, unequal expressions never print
identically, derivative objects print as their constructor applied to the printed expression."""
from __future__ import annotations
import io
import keyword
import tokenize

from .. import wire, gen, common
from ..core import call, sm, X, Report, write_evidence, Batch, parse_answer
from smoothmath import Point
from .c12 import mutate

PID = "C13"

NS = {n: getattr(sm, n) for n in sm.__all__}
NS.update({n: getattr(X, n) for n in X.__all__})


def py_tokens(text: str) -> list:
    out = []
    neg = False
    for t in tokenize.generate_tokens(io.StringIO(text).readline):
        if t.type in (tokenize.NEWLINE, tokenize.NL, tokenize.ENDMARKER):
            continue
        if t.type == tokenize.NAME:
            out.append(("i", t.string))
        elif t.type == tokenize.STRING:
            out.append(("s", eval(t.string)))
        elif t.type == tokenize.NUMBER:
            v = eval(t.string)
            out.append(("n", -v if neg else v))
            neg = False
        elif t.type == tokenize.OP and t.string == "-":
            neg = True
        elif t.type == tokenize.OP:
            out.append((t.string, None))
        else:
            out.append(("?", t.string))
    return out


def model_tokens(toks: list[str]) -> list:
    out = []
    for t in toks:
        if t.startswith("i:"):
            out.append(("i", t[2:]))
        elif t.startswith("s:"):
            out.append(("s", t[2:]))
        elif t.startswith("n:"):
            out.append(("n", wire.MNum(t[2:]).as_float()))
        elif t.startswith("k:"):
            out.append(("n", int(t[2:])))
        else:
            out.append((t, None))
    return out


def tokens_equal(a: list, b: list) -> str | None:
    if len(a) != len(b):
        return f"{len(a)} tokens vs {len(b)}"
    for i, (x, y) in enumerate(zip(a, b)):
        if x[0] != y[0] or (x[0] == "n" and float(x[1]) != float(y[1])) or (x[0] != "n" and x[1] != y[1]):
            return f"token {i}: {x} vs {y}"
    return None


HARD = [0.1 + 0.2, 1.1 * 1.1, 1 / 3, 2 / 3, 10 ** 16 + 1, 2 ** 53 + 1, 10 ** 22, 10 ** 23, 123456789012345678901234567890,
        5e-324, 2.2250738585072014e-308, 1.7976931348623157e308, 1e16, 1e-7, 1.5e-10, 0.1, 1e22, 1e23, 9007199254740993.0,
        4.35, 0.30000000000000004, 2.675, 1.0000000000000002, 0.9999999999999999, 3.141592653589793, -0.0, 100.0, 1e100,
        6.02214076e23, 299792458, -17, 255, 1e-5, 0.0001, 123456.789]


def hardify(e, rng):
    """numeric content that is hard to print: 17-significant-digit doubles, big ints, extremes,
    exponent forms (nothing is evaluated in this check)"""
    c = wire.cls(e)
    def pos():
        v = abs(rng.choice(HARD))
        return v if v > 0 and v != 1 else 0.30000000000000004
    if c == "Constant":
        return X.Constant(rng.choice(HARD) * rng.choice([1, -1])) if rng.random() < 0.6 else e
    if c == "Variable":
        return e
    if c in ("Add", "Multiply"):
        return e.__class__(*(hardify(a, rng) for a in e._inners))
    if c in ("Minus", "Divide", "Power"):
        return e.__class__(hardify(e._left, rng), hardify(e._right, rng))
    if c in ("NthPower", "NthRoot"):
        return e.__class__(hardify(e._inner, rng), rng.choice([e._parameter, 10 ** 6, 17, 2 ** 40]))
    if c in ("Exponential", "Logarithm"):
        return e.__class__(hardify(e._inner, rng), base=pos() if rng.random() < 0.5 else e._parameter)
    return e.__class__(hardify(e._inner, rng))


def gen_cases(rng, tier: str) -> list[dict]:
    cases = []
    for origin, e in common.expr_stream(rng, tier, common.sizes(tier, 300, 4000), depth_q=4, depth_t=6):
        if rng.random() < 0.6:
            e = hardify(e, rng)
            origin = "hard-numbers"
        kind, m = mutate(e, rng)
        cases.append({"origin": origin.split(":")[0], "e": wire.expr(e), "m": wire.expr(m), "mkind": kind})
    return cases


def check_cases(cases: list[dict], rep: Report, known: dict) -> None:
    b = Batch()
    work = []
    for c in cases:
        if rep.stop():
            break
        e, m = wire.build_raw(c["e"]), wire.build_raw(c["m"])
        vs = sorted(e._variable_names) or ["x"]
        pt = {n: 0.5 + k for k, n in enumerate(vs)}
        asks = {"Partial": b.ask(f"F0 orender OPA {vs[0]} {c['e']}"), "Differential": b.ask(f"F0 orender ODI {c['e']}"),
                "Derivative": b.ask(f"F0 orender ODE {c['e']}"),
                "LocatedDifferential": b.ask(f"F0 orender OL {c['e']} {wire.point(pt)}")} if all(n.isascii() for n in vs) else {}
        work.append((c, e, m, b.ask(f"F0 render {c['e']}"), asks))
    b.run()
    for c, e, m, i, asks in work:
        rep.case((c["e"],), wire.size(e) >= 3)
        rep.count("origin", c["origin"])
        for k, v in wire.classes(e).items():
            rep.count("constructors", k, v)
        r = call(lambda: (repr(e), str(e)))
        info = dict(c, repr=repr(r)[:400])
        if r[0] != "ok":
            rep.violation(f"repr raised {r[1]}", info)
            continue
        text, s = r[1]
        if text != s:
            rep.violation("str(e) differs from repr(e)", info)
        back = call(lambda: eval(text, dict(NS)))
        if back[0] != "ok":
            rep.violation(f"eval(repr(e)) raised {back[1]}: {text[:200]}", info)
        elif not (back[1] == e) or wire.cls(back[1]) != wire.cls(e):
            rep.violation(f"eval(repr(e)) != e: {text[:300]}", info)
        if not (e == m) and repr(m) == text:
            rep.violation(f"two unequal expressions print identically ({c['mkind']}): {text[:300]}", info)
        _, rest = parse_answer(b[i])
        if rest[0] != "1":
            rep.corr_break("model: parse(render e) is not e", info)
        diff = tokens_equal(py_tokens(text), model_tokens(rest[1:]))
        rep.corr_checked += 1
        if diff:
            rep.corr_break(f"repr differs from the model's rendering: {diff}: {text[:300]}", info)
        objects(c, e, text, rep, {k: b[j] for k, j in asks.items()})
        rep.sample({"e": c["e"][:120], "repr": text[:200]})
    points(rep)


def objects(c, e, text: str, rep: Report, model: dict) -> None:
    vs = sorted(e._variable_names) or ["x"]
    p = Point(**{n: 0.5 + i for i, n in enumerate(vs)})
    objs = [
        (sm.Partial(e, vs[0]), f'Partial({text}, Variable("{vs[0]}"))'),
        (sm.Differential(e), f"Differential({text})"),
        (sm.LocatedDifferential(e, p, _private={"numeric_partials": {}}), f"LocatedDifferential({text}, {p!r})"),
    ]
    if len(e._variable_names) <= 1:
        objs.append((sm.Derivative(e), f"Derivative({text})"))
    for o, expect in objs:
        rep.evaluations += 1
        r = call(lambda: (repr(o), str(o)))
        if r[0] != "ok" or r[1][0] != expect or r[1][1] != expect:
            rep.violation(f"{type(o).__name__} prints as {r!r}, expected {expect[:200]}", dict(c))
            continue
        if type(o).__name__ in model:
            diff = tokens_equal(py_tokens(r[1][0]), model_tokens(parse_answer(model[type(o).__name__])[1]))
            rep.corr_checked += 1
            rep.count("object-repr-vs-model", type(o).__name__ + (":differs" if diff else ":match"))
            if diff:
                rep.corr_break(f"{type(o).__name__} repr differs from the model's rendering: {diff}: {r[1][0][:300]}", dict(c))
        if isinstance(o, sm.LocatedDifferential):
            if any(f"n={k}" in text for k in (10 ** 6, 2 ** 40)):
                continue        # evaluating the printed text would really differentiate x ** (2 ** 40)
            back = call(lambda: eval(expect, dict(NS)))
            if back[0] == "ok" and not (back[1] == o):
                rep.violation("eval(repr(LocatedDifferential)) != object", dict(c))
            continue
        back = call(lambda: eval(expect, dict(NS)))
        if back[0] != "ok" or not (back[1] == o):
            rep.violation(f"eval(repr({type(o).__name__})) does not rebuild an equal object: {back!r}"[:300], dict(c))


def points(rep: Report) -> None:
    import random
    rng = random.Random(11)
    names = ["x", "y", "z", "_a", "x1", "self", "theta", "é", "kwargs", "point", "Point", "__x__",
             # legal variable names that keyword-argument syntax cannot express (F4): identifiers that NFKC
             # normalisation changes, reserved words, digits first
             "\u00b5", "\u017f", "\uff58", "\u212b", "class", "lambda", "None", "1x", "123", "\u03bc",
             # identifiers outside the Basic Multilingual Plane (one code point, two UTF-16 units; an escaping routine
             # that thinks in \\uXXXX writes them as a surrogate pair), letters with combining marks, other scripts
             "\U00020000", "\U0001d465", "\U0001d4e7y", "e\u0301", "\u0436", "\u4e2d", "\u03b1\u0332"]
    b = Batch()
    work = []
    for _ in range(400):
        ns = rng.sample(names, rng.randint(0, 4))
        d = {n: rng.choice([1, 2.5, -3, 0.0, -0.125, 1e22, 7, 1e-7] + HARD) for n in ns}
        asc = all(n.isascii() for n in ns)      # the model knows "can be written as a keyword" for ASCII names (NFKC is the identity there)
        work.append((d, b.ask(f"F0 renderpoint {wire.point(d)}") if asc else None))
    b.run()
    for d, i in work:
        rep.evaluations += 1
        p = Point(**d)
        text = repr(p)
        back = call(lambda: eval(text, dict(NS)))
        info = {"point": text}
        if str(p) != text:
            rep.violation("str(point) differs from repr(point)", info)
        stated = all(n.isidentifier() and not keyword.iskeyword(n) for n in d)     # what the property quantifies over
        rep.count("point-names", "identifiers" if stated else "reserved-or-digit-first(not judged)")
        if stated and (back[0] != "ok" or not (back[1] == p)):
            rep.violation(f"eval(repr(point)) != point: {text}", info)
        if i is not None:
            diff = tokens_equal(py_tokens(text), model_tokens(parse_answer(b[i])[1]))
            rep.corr_checked += 1
            if diff:
                rep.corr_break(f"Point repr differs from the model's rendering: {diff}: {text}", info)


def odd_names(rep: Report) -> None:
    """names that Variable should reject: if the implementation accepts one anyway, what it prints must
    still evaluate back to it (the property quantifies over every expression the library can build)"""
    for n in ["x\n", "x\r", "a\"b", "a\\", "x y", "x\t", "q\u2028", "\"", "x'", "x\x00", "x\n\n"]:
        v = call(lambda: X.Variable(n))
        if v[0] != "ok":
            continue
        rep.evaluations += 1
        rep.count("accepted-odd-names", repr(n))
        for e in (v[1], X.Logarithm(X.Negation(v[1]), base=2)):
            text = repr(e)
            back = call(lambda: eval(text, dict(NS)))
            if back[0] != "ok" or not (back[1] == e) or str(e) != text:
                rep.violation(f"an expression over the accepted variable name {n!r} does not print as an evaluable constructor call: {text!r} -> {back!r}"[:400],
                              {"name": n})


def after_failed_prints(rep: Report, rng) -> None:
    """a print that dies half-way (RecursionError on an expression too tall for the interpreter's default limit) must
    leave nothing behind: everything printed before prints the same afterwards, and still evaluates back"""
    import inspect
    import sys
    x, y = X.Variable("x"), X.Variable("y")
    g = gen.Gen(rng, names=("x", "y"))
    samples = [g.expr(d) for d in (1, 2, 3, 3, 4, 4)] + [X.Add(x, X.Constant(1)), X.Multiply(x, y, X.Constant(2.5))]
    tall_sum = x
    for k in range(170):
        tall_sum = X.Add(tall_sum, X.Constant(float(k))) if k % 2 else X.Multiply(tall_sum, X.Constant(1.5))
    samples.append(tall_sum)
    objs = samples + [sm.Derivative(samples[-3]), sm.Partial(samples[-2], "y"), sm.Differential(samples[-2]),
                      sm.LocatedDifferential(samples[-2], Point(x=2.0, y=0.5)), Point(x=1.0, y=2.0)]
    before = [call(lambda: (repr(o), str(o))) for o in objs]
    too_tall = x
    for _ in range(3000):
        too_tall = X.Negation(too_tall)
    for k in range(40):
        too_tall = X.Add(too_tall, X.Constant(1.0)) if k % 2 else X.Multiply(X.Constant(2.0), too_tall, y)
    failed = []
    old = sys.getrecursionlimit()
    try:
        sys.setrecursionlimit(1000 + len(inspect.stack(0)))
        for how in (repr, str, repr, lambda e: repr(sm.Derivative(X.Sine(e))), lambda e: str(sm.Differential(e)), repr):
            failed.append(call(lambda: how(too_tall))[0])
    finally:
        sys.setrecursionlimit(old)
    rep.count("failed-prints", "/".join(failed))
    after = [call(lambda: (repr(o), str(o))) for o in objs]
    for o, b, a in zip(objs, before, after):
        rep.evaluations += 1
        if a != b:
            rep.violation(f"after prints of another (too deeply nested) expression had failed, a {type(o).__name__} prints as {str(a)[:200]} - before: "
                          f"{str(b)[:200]}", {"object": str(b)[:300], "failed": failed})
        elif a[0] == "ok" and wire.cls(o) in wire.HEAD and o is not tall_sum:
            back = call(lambda: eval(a[1][0], dict(NS)))
            if back[0] != "ok" or not (back[1] == o):
                rep.violation(f"after failed prints, eval(repr(e)) no longer rebuilds e: {a[1][0][:200]}", {"object": a[1][0][:300]})


def run(rep: Report, rng, tier: str, known: dict, search: bool = False) -> None:
    if not search:
        after_failed_prints(rep, rng)
    odd_names(rep)
    x = X.Variable("x")
    f1 = [{"origin": "corpus", "e": wire.expr(X.NthRoot(x, 3)), "m": wire.expr(X.NthPower(x, 3)), "mkind": "class"}]
    check_cases(([] if search else f1) + gen_cases(rng, tier), rep, known)


def evidence(rep: Report) -> None:
    write_evidence(
        rep,
        rule="cases = (expression, single-site mutant) from the rule-directed and random streams over all 15 constructors and parameters; per case: tokenised repr against the model's rendering, str == repr, eval(repr) == e with only the public names in scope, the mutant does not print identically, and the same for Partial / Derivative / Differential / LocatedDifferential built on it; 150 generated points with identifier names (incl. 'self', non-ASCII, values of both signs and exponent forms); non-trivial = >= 3 nodes; distinct by wire form; plus points over names keyword syntax cannot spell, names outside the Basic Multilingual Plane, and printing after six prints of a too-tall expression have failed",
        trusted=common.TRUSTED + ["repr(float)/str(int) round-trip in CPython (also exercised by eval)"],
        assumptions=["coordinate names that are Python keywords cannot be written as keyword arguments and are excluded", "finite numeric content"],
    )
