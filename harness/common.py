"""Pieces shared by the property modules: case generation streams, K-signatures, evidence text."""
from __future__ import annotations
import contextlib
import math
import random

from . import wire, gen
from .core import X, sm, call, Report

TRUSTED = [
    "Lean 4.33.0 kernel; Mathlib v4.33.0 (real analysis); axioms propext, Classical.choice, Quot.sound only (audited by #print axioms on every run)",
    "hand-written Lean model (lean/Smooth/Model/*.lean) of the Python code; tied to /repo by this run's correspondence check, not by proof",
    "the Python harness (harness/*.py) and the native model driver (lean/Main.lean)",
    "IEEE-754 double arithmetic and libm accuracy (<= 2 ulp); CPython's sum/float.__pow__/math.log(x, b)/hash/repr/dict order as documented",
]

ASSUME_RANGE = "points are finite and no exact intermediate leaves ordinary floating-point range (cases outside are counted as skipped, not judged)"


def sizes(tier: str, quick: int, thorough: int) -> int:
    return quick if tier == "quick" else thorough


def names_of(e) -> list[str]:
    return sorted(e._variable_names)


# ------------------------------------------------------------------------------ case streams

def expr_stream(rng: random.Random, tier: str, n_random: int, depth_q: int = 4, depth_t: int = 6,
                share: float = 0.0, kinds=gen.ALL, names=("x", "y", "z"), rules: bool = True,
                rule_rounds: int = 2, pairs: bool = True):
    """(origin, expression) pairs: rule-directed patterns (every rule, every round), then random
    type-directed trees of mixed fragments and depths"""
    out = []
    if rules:
        for rnd in range(rule_rounds if tier == "quick" else 3 * rule_rounds):
            g = gen.Gen(rng, names=names[: 1 + rnd % len(names)], kinds=kinds)
            for name, e in gen.rule_patterns(g, depth=1 + rnd % 2):
                out.append(("rule:" + name, e))
                if rnd % 2 == 1:
                    out.append(("rule+:" + name, gen.wrap_random(g, e, 1 + rnd % 2)))
    if pairs and set(kinds) >= set(gen.ALL):
        for rnd in range(1 if tier == "quick" else 4):
            g = gen.Gen(rng, names=names[: 1 + rnd % len(names)], kinds=kinds)
            out += gen.pair_patterns(g)
            out += gen.param_pairs(g)
            out += gen.twin_patterns(g)
    maxd = depth_q if tier == "quick" else depth_t
    frags = [gen.RATIONAL, gen.RATIONAL + gen.ROOTS, kinds, kinds]
    for i in range(n_random):
        ks = [k for k in frags[i % len(frags)] if k in kinds] or list(kinds)
        nm = names[: 1 + (i % len(names))]
        g = gen.Gen(rng, names=nm, kinds=ks, share=share if i % 3 == 0 else 0.0)
        out.append(("random", g.expr(1 + i % maxd)))
    return out


def points_for(rng: random.Random, e, k: int, extra: float = 0.0) -> list[dict]:
    g = gen.Gen(rng)
    vs = names_of(e)
    pts = []
    for j in range(k):
        grid = gen.GRID if j % 3 else [v for v in gen.GRID if v > 0] + [0.5, 2]
        if rng.random() < 0.12:
            # far from the usual magnitudes, still well inside double range: values next to a
            # boundary that are *not* on it, large arguments
            grid = gen.GRID + EXTREME
        pts.append(g.point(vs, grid=grid, extra=extra))
    return pts


EXTREME = [1e-20, -1e-18, 3e-17, 1e-9, -1e-9, 1e9, 1e20, -1e20, 1e-60, 5e-17, 1e-15, 40.0, -40.0, 700.0]


def make_eval_case(origin: str, e, p: dict) -> dict:
    e, p = gen.safe_numbers(e, p)
    return {"origin": origin, "e": wire.expr(e, ids={}), "p": wire.point(p)}


# ----------------------------------------------------------------------------- K signatures

def tree_has(e, pred) -> bool:
    return pred(e) or any(tree_has(c, pred) for c in wire.children(e))


def libm_site(e) -> bool:
    """nodes whose value formula goes through libm (cbrt, **, log): K3 can only arise there"""
    c = wire.cls(e)
    return (c in ("Logarithm", "Power", "Exponential", "Cosine", "Sine")
            or (c == "NthRoot" and e._parameter >= 3))


def k1_redex(e) -> bool:
    return (wire.cls(e) == "NthRoot" and wire.cls(e._inner) == "NthPower"
            and e._parameter % 2 == 0 and e._inner._parameter % 2 == 0)


@contextlib.contextmanager
def k1_disabled():
    """the implementation with exactly the known-unsound instance of one rule switched off:
    NthRoot(NthPower(u, m), n) is left alone when n and m are both even.  Used only to decide
    whether an observed failure is the recorded finding K1 or something else."""
    cls = X.NthRoot
    orig = cls._reduce_nth_root_of_mth_power

    def patched(self):
        if k1_redex(self):
            return None
        return orig(self)
    cls._reduce_nth_root_of_mth_power = patched
    try:
        yield
    finally:
        cls._reduce_nth_root_of_mth_power = orig


class WarnCatcher:
    """counts the root-logger warning of ``_fully_reduce``"""

    def __init__(self):
        import logging
        self.count = 0
        self.logging = logging

    def __enter__(self):
        outer = self

        class H(self.logging.Handler):
            def emit(self, record):
                if "Unable to fully reduce" in record.getMessage():
                    outer.count += 1
        self.h = H()
        self.root = self.logging.getLogger()
        self.root.addHandler(self.h)
        self.prev = self.root.level
        return self

    def __exit__(self, *a):
        self.root.removeHandler(self.h)
        return False


import logging as _logging  # noqa: E402
_logging.getLogger().addHandler(_logging.NullHandler())
_logging.lastResort = None  # keep the library's warning off stderr; WarnCatcher still sees it
