"""Pieces shared by the property modules: case generation streams, K-signatures, evidence text."""
from __future__ import annotations
import contextlib
import math
import random

from . import wire, gen
from .core import X, sm, call, Report

TRUSTED = [
    "Lean 4.33.0 kernel; Mathlib v4.33.0 (real analysis); axioms propext, Classical.choice, Quot.sound only (audited by #print axioms on every run)",
    "hand-written Lean model (lean/Smooth/Model/*.lean) of the Python code; tied to /repo by this run's correspondence check, not by proof",
    "the Python harness (harness/*.py) and the native model driver (lean/Main.lean)",
    "IEEE-754 double arithmetic and libm accuracy (<= 2 ulp); CPython's sum/float.__pow__/math.log(x, b)/hash/repr/dict order as documented",
]

ASSUME_RANGE = "points are finite and no exact intermediate exceeds 1e250 in magnitude or underflows to 0.0 (cases outside are counted as skipped or rounding-ambiguous, not judged); subnormal intermediates are judged, the double instance of the model carries an absolute underflow term"


def sizes(tier: str, quick: int, thorough: int) -> int:
    """number of generated cases; the quick tier looks three times as hard when the implementation's
    source differs from the fingerprint the checks were last validated against"""
    from .core import changed_sources
    if tier == "quick":
        return min(quick * 3, thorough) if changed_sources() else quick
    return thorough


def names_of(e) -> list[str]:
    return sorted(e._variable_names)


# ------------------------------------------------------------------------------ case streams

def expr_stream(rng: random.Random, tier: str, n_random: int, depth_q: int = 4, depth_t: int = 6,
                share: float = 0.0, kinds=gen.ALL, names=("x", "y", "z"), rules: bool = True,
                rule_rounds: int = 2, pairs: bool = True, max_size: int | None = None):
    """(origin, expression) pairs: rule-directed patterns (every rule, every round), then random
    type-directed trees of mixed fragments and depths"""
    out = []
    if rng.random() < 0.3 and all(len(n) == 1 for n in names):
        # names of several characters: CPython shares one object for every one-character string, so only
        # longer names can tell `==` from `is` on names
        first = rng.choice(["xx", "whatever", "self", "point", "variable"])      # incl. the library's own placeholder and parameter names
        names = tuple({"x": first, "y": "y_1", "z": "zeta", "u": "uu", "v": "v2", "w": "ww", "t": "tau"}.get(n, n + n) for n in names)
    if rules:
        for rnd in range(rule_rounds if tier == "quick" else 3 * rule_rounds):
            g = gen.Gen(rng, names=names[: 1 + rnd % len(names)], kinds=kinds)
            for name, e in gen.rule_patterns(g, depth=1 + rnd % 2):
                out.append(("rule:" + name, e))
                if rnd % 2 == 1:
                    out.append(("rule+:" + name, gen.wrap_random(g, e, 1 + rnd % 2)))
    if pairs and set(kinds) >= set(gen.ALL):
        for rnd in range(1 if tier == "quick" else 4):
            g = gen.Gen(rng, names=names[: 1 + rnd % len(names)], kinds=kinds)
            out += gen.pair_patterns(g)
            out += gen.param_pairs(g)
            out += gen.twin_patterns(g)
    if rules and set(kinds) >= set(gen.ALL):
        out += gen.rich_shapes(rng, max(40, n_random // 3))
        out += gen.unary_chains(rng, max(30, n_random // 4))
        out += gen.scaled(rng, max(24, n_random // 8))
        out += gen.cancelling_products(rng, max(40, n_random // 4))
        from .core import changed_classes
        focus = [k for k in changed_classes() if k in kinds]
        if focus:       # the classes whose source changed: shapes rooted at them, bare and inside random parents
            out += gen.unary_chains(rng, 1200 if tier == "quick" else 6000, top=focus)
            if "Multiply" in focus or "Add" in focus:
                out += gen.cancelling_products(rng, 400 if tier == "quick" else 3000)
            g = gen.Gen(rng, names=names, kinds=kinds)
            for origin, e in gen.rich_shapes(rng, max(60, n_random // 2), classes=focus):
                out.append(("changed:" + origin, e))
                out.append(("changed+:" + origin, gen.wrap_random(g, e, 1)))
    maxd = depth_q if tier == "quick" else depth_t
    frags = [gen.RATIONAL, gen.RATIONAL + gen.ROOTS, kinds, kinds]
    for i in range(n_random):
        ks = [k for k in frags[i % len(frags)] if k in kinds] or list(kinds)
        nm = names[: 1 + (i % len(names))]
        g = gen.Gen(rng, names=nm, kinds=ks, share=share if i % 3 == 0 else 0.0)
        out.append(("random", g.expr(1 + i % maxd)))
    if max_size:        # checks that run many operations per case leave the very large inputs to the others
        out = [(o, e) for o, e in out if wire.size(e) <= max_size]
    return [(o, rename_variables(rng, e)) if rng.random() < 0.2 else (o, e) for o, e in out]


NAME_SCHEMES = [
    {"x": "xx", "y": "y_1", "z": "zeta"}, {"x": "whatever", "y": "name", "z": "self"}, {"x": "point", "y": "value", "z": "variable"},
    # legal names (\w+) that Unicode normalisation (NFKC) would change, next to the names it would change them into:
    # MICRO SIGN / GREEK MU, superscript two / "x2", fullwidth x / "x", the fi ligature / "fi"
    {"x": "\u00b5", "y": "\u03bc", "z": "x\u00b2"}, {"x": "x\u00b2", "y": "x2", "z": "\u00b5"}, {"x": "\uff58", "y": "x", "z": "\ufb01"},
    {"x": "\ufb01", "y": "fi", "z": "\u2167"}, {"x": "\u00e9", "y": "e\u0301".replace("\u0301", "_"), "z": "\u212a"},
]


def rename_variables(rng: random.Random, e):
    """the same expression (object sharing kept) over other variable names"""
    scheme = rng.choice(NAME_SCHEMES)
    toks = wire.expr(e, ids={}).split(" ")
    for i, t in enumerate(toks):
        if i and toks[i - 1].split("@")[0].split(".")[0] == "V":
            toks[i] = scheme.get(t, t)
    return wire.build_raw(" ".join(toks))


def points_for(rng: random.Random, e, k: int, extra: float = 0.0) -> list[dict]:
    g = gen.Gen(rng)
    vs = names_of(e)
    pts = []
    for j in range(k):
        grid = gen.GRID if j % 3 else [v for v in gen.GRID if v > 0] + [0.5, 2]
        if rng.random() < 0.12:
            # far from the usual magnitudes, still well inside double range: values next to a
            # boundary that are *not* on it, large arguments
            grid = gen.GRID + EXTREME
        pts.append(g.point(vs, grid=grid, extra=extra))
    return pts



def near_special(rng: random.Random, count: int) -> list[tuple]:
    """(expression, point) pairs whose interesting sub-result sits a hair away from a value that is
    special for the node above it: an argument of a root next to a perfect power, of a logarithm next to
    a power of the base or to 1, an exponent next to an integer, a huge n, an angle next to a multiple
    of pi/2 ... - the places where a shortcut, a snap-to-integer or a tolerance would show"""
    X, V = gen.X, gen.X.Variable
    x, y = V("x"), V("y")
    deltas = [1e-10, -1e-10, 2.5e-12, -3e-13, 1e-8, -1e-7, 1e-15, 0.0]
    out = []
    for _ in range(count):
        d = rng.choice(deltas)
        k = rng.choice([1, 2, 3, 5, 7, 10])
        kind = rng.randrange(12)
        if kind == 0:
            n = rng.choice([2, 3, 4, 5, 6, 7, 8, 9, 10, 11, 12, 13, 15, 21, 27, 33])
            v = float(k ** n) * (1 + d)
            if n % 2 == 1 and rng.random() < 0.4:
                v = -v
            e, pt = X.NthRoot(x, n), {"x": v}
        elif kind == 1:
            n = rng.choice([10 ** 6, 10 ** 8, 10 ** 10, 2 ** 40, 12345677])
            e, pt = X.NthRoot(x, n), {"x": rng.choice([2.0, 0.5, 10.0, 1 + 1e-7, 123.0])}
        elif kind == 2:
            n = rng.choice([4, 5, 6, 7, 9])
            c = float(k ** n)
            e, pt = X.NthRoot(X.Add(X.Constant(c), x), n), {"x": c * d}
        elif kind == 3:
            b = rng.choice([2, 10, 3, 0.5, 7.0, None])
            m = rng.choice([0, 1, 2, 3, 5, -1, -2])
            base = math.e if b is None else b
            v = float(base) ** m * (1 + d)
            e = X.Logarithm(x) if b is None else X.Logarithm(x, base=b)
            pt = {"x": v}
        elif kind == 4 and rng.random() < 0.4:
            # a base a hair away from 1 or from e (a growth factor per period; an "e" typed with ten digits)
            b = rng.choice([1.0, math.e]) * (1 + rng.choice([1e-10, -1e-10, 3e-12, -2e-13, 1e-8]))
            f = rng.choice([lambda u: X.Exponential(u, base=b), lambda u: X.Logarithm(u, base=b),
                            lambda u: X.Multiply(y, X.Exponential(X.Multiply(X.Constant(2.0), u), base=b))])
            e, pt = f(x), {"x": rng.choice([1.0, 3.0, 0.5, 3e11 if b < 1.1 else 2.0]), "y": 1.5}
        elif kind == 4:
            b = rng.choice([2, 10, 3, 0.5, None])
            m = rng.choice([0, 1, 2, -1, 10])
            e = X.Exponential(x) if b is None else X.Exponential(x, base=b)
            pt = {"x": m + d * max(1, abs(m))}
        elif kind == 5:
            m = rng.choice([1, 2, 3, -1, -2, 0.5, 0])
            e, pt = X.Power(x, y), {"x": float(k) * (1 + rng.choice(deltas)) + (1 if k == 1 else 0) * 0.0, "y": m + d}
        elif kind == 6:
            n = rng.choice([2, 3, 10, 50, 1000, 10 ** 6])
            e, pt = X.NthPower(x, n), {"x": rng.choice([1.0, -1.0, 2.0 if n < 1000 else 1.0]) * (1 + d)}
        elif kind == 7:
            f = rng.choice([X.Sine, X.Cosine])
            e, pt = f(x), {"x": rng.choice([0, 1, 2, -1, 4, 100]) * math.pi / 2 + d}
        elif kind == 8:
            f = rng.choice([X.Reciprocal, lambda u: X.Divide(y, u), lambda u: X.Divide(u, y)])
            e, pt = f(x), {"x": rng.choice([1.0, -1.0, float(k)]) * (1 + d), "y": float(k)}
        elif kind == 9:
            # cancellation against the special value: an error of 1e-10 becomes 100 %
            n = rng.choice([4, 5, 6, 7])
            e = X.Minus(X.NthRoot(x, n), X.Constant(k))
            pt = {"x": float(k ** n) * (1 + d)}
        elif kind == 10:
            b = rng.choice([2, 10, 3])
            m = rng.choice([1, 2, 3])
            e = X.Minus(X.Logarithm(x, base=b), X.Constant(m))
            pt = {"x": float(b ** m) * (1 + d)}
        else:
            n = rng.choice([3, 5, 7])
            e = X.Multiply(X.Constant(2), X.NthRoot(X.Minus(x, y), n))
            pt = {"x": -float(k ** n), "y": abs(d) * 1e7}
        pt = {v: pt[v] for v in sorted(e._variable_names)}
        out.append((e, pt))
    return out



def compensating_products(rng: random.Random, count: int) -> list[tuple]:
    """(expression, point) pairs: products (and quotients) whose factors are wildly different in
    magnitude but compensate each other from left to right, so that the value, every node value and
    the partials stay well inside the double range while other groupings of the same factors (a
    tail product, the product of every second factor) would overflow or underflow"""
    X, V = gen.X, gen.X.Variable
    names = ["x", "y", "z", "u"]
    out = []
    tries = 0
    while len(out) < count and tries < count * 50:
        tries += 1
        k = rng.randint(3, 5)
        exps = [rng.choice([-1, 1]) * rng.uniform(90, 200) if rng.random() < 0.75 else rng.uniform(-3, 3) for _ in range(k)]
        pre = 0.0
        ok = True
        for a in exps:
            pre += a
            ok = ok and abs(pre) < 230
        if not ok or abs(pre) > 150:
            continue
        # some other grouping must leave the range, else the case is an ordinary one
        sums = [sum(exps[i:j]) for i in range(k) for j in range(i + 1, k + 1)]
        if not any(a > 300 or a < -310 for a in sums):
            continue
        pt = {}
        fs = []
        free = names[:]
        nconst = 0
        for a in exps:
            v = rng.uniform(1, 9.9) * 10.0 ** a * rng.choice([1, 1, -1])
            if abs(a) > 50 and nconst == 0 and rng.random() < 0.5 or not free:
                fs.append(X.Constant(v))
                nconst += 1
            else:
                n = free.pop(0)
                pt[n] = v
                fs.append(V(n))
        if not pt:
            continue
        shape = rng.randrange(5)
        if shape == 0 or k < 4:
            e = X.Multiply(*fs)
        elif shape == 1:
            e = X.Multiply(fs[0], X.Multiply(*fs[1:3]), *fs[3:])
        elif shape == 2:
            e = X.Add(X.Multiply(*fs), X.Constant(1.5))
        elif shape == 3:
            e = X.Multiply(X.Multiply(*fs[:2]), X.Multiply(*fs[2:]))
        else:
            e = X.Sine(X.Multiply(*fs)) if abs(pre) < 2 else X.Negation(X.Multiply(*fs))
        out.append((e, {n: pt[n] for n in sorted(e._variable_names)}))
    return out



def hash_twin(p: dict, rng: random.Random) -> tuple[dict, dict]:
    """(p', q): q differs from p' in one coordinate only, and where possible in a way CPython's hash
    cannot see (hash(-1) == hash(-2), for ints and floats alike), so that a table keyed by hash(point)
    rather than by the point confuses the two"""
    if not p:
        return p, p
    k = rng.choice(sorted(p))
    v = p[k]
    if v in (-1, -2):
        return p, {**p, k: type(v)(-3 - v)}
    if rng.random() < 0.5:
        a, b = rng.choice([(-1, -2), (-2, -1), (-1.0, -2.0), (-2.0, -1)])
        return {**p, k: a}, {**p, k: b}
    return p, {**p, k: v + 1}



def vanishing_products(rng: random.Random, count: int) -> list[tuple]:
    """(expression, point): products of 2-10 factors evaluated where one (or two) of the factors is
    exactly zero — the derivative of a factored polynomial at one of its roots — bare, nested and
    under other nodes; the vanishing factor sits at any position"""
    X, V = gen.X, gen.X.Variable
    x, y, z = V("x"), V("y"), V("z")
    out = []
    for _ in range(count):
        k = rng.choice([2, 3, 3, 4, 5, 6, 6, 7, 8, 10])
        root = rng.choice([0.0, 1.0, -2.0, 0.5, 3.0])
        pt = {"x": root, "y": rng.choice([2.0, -1.5, 0.5, 3.0]), "z": rng.choice([1.5, -0.5, 4.0])}

        def nonzero():
            r = rng.randrange(7)
            if r == 0:
                return X.Add(x, X.Constant(rng.choice([5.0, 7.0, -9.0])))
            if r == 1:
                return y
            if r == 2:
                return X.Add(X.NthPower(x, 2), X.Constant(1.0))
            if r == 3:
                return X.Exponential(x)
            if r == 4:
                return X.Add(z, X.Multiply(x, y), X.Constant(11.0))
            if r == 5:
                return X.Cosine(X.Multiply(X.Constant(0.25), y))
            return X.Constant(rng.choice([2.0, -3.0, 0.5]))

        def vanishing():
            r = rng.randrange(5)
            if r == 0:
                return X.Minus(x, X.Constant(root)) if root != 0 else x
            if r == 1:
                return X.Multiply(X.Minus(x, X.Constant(root)), y)
            if r == 2:
                return X.Sine(X.Minus(x, X.Constant(root)))
            if r == 3:
                return X.Minus(X.NthPower(x, 3), X.Constant(root ** 3))
            return X.Minus(X.Multiply(x, z), X.Constant(root * pt["z"]))
        fs = [nonzero() for _ in range(k)]
        pos = rng.randrange(k)
        fs[pos] = vanishing()
        if rng.random() < 0.25:
            fs[rng.randrange(k)] = vanishing()
        e = X.Multiply(*fs)
        shape = rng.randrange(5)
        if shape == 1:
            e = X.Add(e, X.Multiply(y, z))
        elif shape == 2:
            e = X.Sine(e)
        elif shape == 3 and k >= 4:
            e = X.Multiply(X.Multiply(*fs[: k // 2]), X.Multiply(*fs[k // 2:]))
        elif shape == 4:
            e = X.Divide(e, X.Add(X.Constant(2.0), X.NthPower(y, 2)))
        out.append((e, {n: pt[n] for n in sorted(e._variable_names)}))
    return out


EXTREME = [1e-20, -1e-18, 3e-17, 1e-9, -1e-9, 1e9, 1e20, -1e20, 1e-60, 5e-17, 1e-15, 40.0, -40.0, 700.0]


def make_eval_case(origin: str, e, p: dict) -> dict:
    e, p = gen.safe_numbers(e, p)
    return {"origin": origin, "e": wire.expr(e, ids={}), "p": wire.point(p)}



def constants_all_dyadic(e) -> bool:
    """every Constant in the tree is an integer or a small dyadic rational: constant folding that
    produced them was exact (6 * (1/5) folds to 1.2000000000000002, which is not)"""
    if wire.cls(e) == "Constant":
        v = e.value
        if isinstance(v, bool) or not isinstance(v, (int, float)):
            return False
        if isinstance(v, int):
            return True
        return math.isfinite(v) and abs(v) < 2.0 ** 40 and float(v * 2.0 ** 20).is_integer()
    return all(constants_all_dyadic(c) for c in wire.children(e))

# ----------------------------------------------------------------------------- K signatures

def tree_has(e, pred) -> bool:
    return pred(e) or any(tree_has(c, pred) for c in wire.children(e))


def libm_site(e) -> bool:
    """nodes whose value formula goes through libm (cbrt, **, log): K3 can only arise there"""
    c = wire.cls(e)
    return (c in ("Logarithm", "Power", "Exponential", "Cosine", "Sine")
            or (c == "NthRoot" and e._parameter >= 3))


def k1_redex(e) -> bool:
    return (wire.cls(e) == "NthRoot" and wire.cls(e._inner) == "NthPower"
            and e._parameter % 2 == 0 and e._inner._parameter % 2 == 0)


@contextlib.contextmanager
def k1_disabled():
    """the implementation with exactly the known-unsound instance of one rule switched off:
    NthRoot(NthPower(u, m), n) is left alone when n and m are both even.  Used only to decide
    whether an observed failure is the recorded finding K1 or something else: a failure is K1 only if
    it disappears inside this block AND the even/even redex was actually met there (`hits > 0`) —
    a failure that merely does not reproduce on a second run is not K1."""
    cls = X.NthRoot
    orig = cls._reduce_nth_root_of_mth_power

    class Seen:
        hits = 0        # how often the even/even redex was met (and left alone) inside the block
    seen = Seen()

    def patched(self):
        if k1_redex(self):
            seen.hits += 1
            return None
        return orig(self)
    cls._reduce_nth_root_of_mth_power = patched
    try:
        yield seen
    finally:
        cls._reduce_nth_root_of_mth_power = orig


class WarnCatcher:
    """counts the root-logger warning of ``_fully_reduce``"""

    def __init__(self):
        import logging
        self.count = 0
        self.logging = logging

    def __enter__(self):
        outer = self

        class H(self.logging.Handler):
            def emit(self, record):
                # any warning the library logs while simplifying (its wording is not part of any property)
                if record.levelno >= outer.logging.WARNING:
                    outer.count += 1
        self.h = H()
        self.root = self.logging.getLogger()
        self.root.addHandler(self.h)
        self.prev = self.root.level
        return self

    def __exit__(self, *a):
        self.root.removeHandler(self.h)
        return False


import logging as _logging  # noqa: E402
_logging.getLogger().addHandler(_logging.NullHandler())
_logging.lastResort = None  # keep the library's warning off stderr; WarnCatcher still sees it


HASH_TWIN_TOKENS = {"xc000000000000000": "xbff0000000000000", "xbff0000000000000": "xc000000000000000",
                    "x3ff0000000000000": "x43c0000000000000", "x43c0000000000000": "x3ff0000000000000",
                    "-2": "-1", "-1": "-2", "1": str(2 ** 61), str(2 ** 61): "1", "0": str(2 ** 61 - 1), str(2 ** 61 - 1): "0"}


def expr_hash_twins(text: str, limit: int = 3) -> list[str]:
    """wire forms that differ from ``text`` in one constant (or in all of them) by a value CPython hashes alike
    (-1 and -2, 1 and 2**61, 0 and 2**61 - 1): different expressions that any table keyed by hash() confuses"""
    toks = text.split(" ")
    sites = [i for i, t in enumerate(toks) if i and toks[i - 1].split("@")[0].split("!")[0] == "C" and t in HASH_TWIN_TOKENS]
    out = []
    for i in sites[:limit]:
        t2 = toks[:]
        t2[i] = HASH_TWIN_TOKENS[toks[i]]
        out.append(" ".join(t2))
    if len(sites) > 1:
        out.append(" ".join(HASH_TWIN_TOKENS[t] if i in sites else t for i, t in enumerate(toks)))
    return out


def int_exact(rng: random.Random, count: int) -> list[tuple]:
    """(expression, point) pairs on which CPython's own arithmetic is exact where doubles are not: one sum /
    difference / negation / integer power whose operands are all *int* leaves (int Constants, Variables with int
    coordinates) beyond 2**53 that cancel to a small integer, alone and under every node with a restricted domain.
    `math_functions.add/minus/negation/nth_power` work on Python ints there and convert once, so sign and zero-ness
    of the node's value are those of exact arithmetic - the exact-rational instance of the model decides these
    cases (marked ``int_exact``), not the double instance"""
    X, V, C = gen.X, gen.X.Variable, gen.X.Constant
    out = []
    for _ in range(count):
        t = rng.choice([0, 0, 1, 1, -1, 4, 8, -8, 2, 3, 9, 27, 16])
        m = rng.randint(2, 5)
        vals = [rng.choice([1, -1]) * (2 ** rng.randint(53, 60) + rng.randrange(1, 2 ** 20) * 2 + 1) for _ in range(m - 1)]
        vals.append(t - sum(vals))
        rng.shuffle(vals)
        names = ["x", "y", "zeta"]
        p: dict = {}
        leaves = []
        for k, v in enumerate(vals):
            if k < len(names) and rng.random() < 0.5:
                p[names[k]] = v
                leaves.append(V(names[k]))
            else:
                leaves.append(C(v))
        if not p:
            p["x"] = vals[0]
            leaves[0] = V("x")
        shape = rng.randrange(4)
        if shape == 0 or m > 2:
            S = X.Add(*leaves)
        elif shape == 1:
            # a - b with b = -(second operand)
            b = leaves[1]
            if wire.cls(b) == "Constant":
                S = X.Minus(leaves[0], C(-b.value))
            else:
                p[b.name] = -p[b.name]
                S = X.Minus(leaves[0], b)
        elif shape == 2:
            S = X.Negation(X.Add(*[C(-l.value) if wire.cls(l) == "Constant" else l for l in leaves]))
            for l in leaves:
                if wire.cls(l) == "Variable":
                    p[l.name] = -p[l.name]
        else:
            S = X.Add(*leaves)
        parents = [S, X.Reciprocal(S), X.Divide(C(1), S), X.Divide(C(3), S), X.Power(S, C(2)), X.NthPower(S, 2),
                   X.Multiply(C(2), X.Reciprocal(S))]
        if t in (1, 4, 9, 16):
            parents += [X.NthRoot(S, 2), X.Logarithm(S) if t == 1 else X.NthRoot(S, 4) if t == 16 else X.NthRoot(S, 2)]
        if t in (1, 8, -8, 27, -1):
            parents.append(X.NthRoot(S, 3))
        if t <= 0:
            parents += [X.NthRoot(S, 2), X.Logarithm(S), X.NthRoot(S, 4)]
        for e in rng.sample(parents, 3):
            out.append((e, dict(p)))
    return out


def tiny_powers(rng: random.Random, count: int) -> list[tuple]:
    """(expression, point): an integer power (or a product of equal factors, a square under a root, an exponential)
    whose *value* is a subnormal double or underflows to 0.0 while its derivative, or the part of the tree that
    uses it, is an ordinary number - a formula that recomputes something from the node's own value (u**n / u) loses
    what the direct formula (n * u**(n-1)) keeps"""
    X, V, C = gen.X, gen.X.Variable, gen.X.Constant
    x, y = V("x"), V("y")
    out = []
    for _ in range(count):
        n = rng.choice([2, 2, 3, 4, 5, 7, 10, 20, 21, 23, 40])
        digits = rng.randint(309, 330)           # u**n is about 10**-digits: subnormal up to 323, then 0.0
        mag = 10.0 ** (-digits / n) * rng.choice([1.0, 1.7, 0.31])
        sign = rng.choice([1.0, 1.0, -1.0])
        kind = rng.randrange(5)
        if kind == 0:
            u, pt = x, {"x": sign * mag}
        elif kind == 1:
            u, pt = X.Add(x, y), {"x": sign * mag * 4, "y": -sign * mag * 3}
        elif kind == 2:
            u, pt = X.Multiply(C(sign), x), {"x": mag}
        elif kind == 3:
            u, pt = X.Minus(x, C(1.0)), {"x": 1.0 + sign * max(mag, 2.0 ** -40)}
        else:
            u, pt = X.Multiply(x, y), {"x": sign * mag ** 0.5, "y": mag ** 0.5}
        core = rng.choice([X.NthPower(u, n), X.NthPower(u, n), X.Multiply(*([u] * min(n, 5))), X.Power(X.NthPower(u, 2), C(n / 2.0)),
                           X.NthPower(X.NthPower(u, 2), max(1, n // 2))])
        e = rng.choice([core, X.Multiply(C(1e300), core), X.Add(core, x), X.Multiply(core, X.Exponential(y if "y" in pt else x)),
                        X.Sine(core), X.Add(core, C(1.0)), X.Divide(core, C(1e-300)), X.Negation(core)])
        out.append((e, {k: pt[k] for k in sorted(e._variable_names) if k in pt} | {k: 1.5 for k in e._variable_names if k not in pt}))
    return out

